"""Reference Prolog for C13 / C19 (DESIGN 3.2, C13, C19).  No import of problog.

Two independent evaluators over one JSON-native AST:

* `Interp` - SLD resolution (depth first, clauses top to bottom, goals left to right) with negation as failure,
  conjunction / disjunction, =/2, \\=/2, findall/3, all/3 (one element per distinct answer substitution of the goal,
  fails on no solution), lists and compound terms.  Answers come IN ORDER WITH DUPLICATES.
* `least_model` - semi-naive bottom-up evaluation of definite Datalog (no function symbols): the least Herbrand model.

AST
  term      : ["a", name] | ["i", int] | ["v", Name] | ["c", functor, [term, ...]] | ["l", [term, ...], tail|None]
  goal      : ["call", pred, [term, ...]] | ["and", [goal, ...]] | ["or", [goal, ...]] | ["not", goal]
              | ["=", t1, t2] | ["\\=", t1, t2] | ["findall", template, goal, result] | ["all", template, goal, result]
              | ["true"] | ["fail"]
  statement : ["cl", [pred, [term, ...]], goal|None]
              | ["pf", "0.3", [pred, [term, ...]]]                         (probabilistic fact, C19)
              | ["ad", [["0.3", [pred, [term, ...]]], ...], goal|None]    (annotated disjunction / prob. rule, C19)
              | ["query", [pred, [term, ...]]]                            (C19)

Internal terms are hashable tuples: ('a', name) | ('i', n) | ('v', id) | ('c', functor, (args...)); lists are
'.'/2 cells ending in ('a', '[]').
"""
from fractions import Fraction

NIL = ("a", "[]")


class Budget(Exception):
    """Step budget exhausted (the program may not terminate under SLD)."""


class Unsupported(Exception):
    """The program is outside the fragment the evaluator covers."""


class NeedChoice(Exception):
    """The SLD run needs the value of a probabilistic choice the current partial world does not fix."""

    def __init__(self, key, probs):
        Exception.__init__(self, key)
        self.key = key
        self.probs = probs


# ------------------------------------------------------------------------------------------------ rendering

def render_term(t):
    k = t[0]
    if k in ("a", "v"):
        return t[1]
    if k == "i":
        return str(t[1])
    if k == "c":
        return "%s(%s)" % (t[1], ",".join(render_term(x) for x in t[2]))
    if k == "l":
        s = ",".join(render_term(x) for x in t[1])
        if t[2] is not None:
            return "[%s|%s]" % (s, render_term(t[2]))
        return "[%s]" % s
    raise ValueError(t)


def render_atom(a):
    if not a[1]:
        return a[0]
    return "%s(%s)" % (a[0], ",".join(render_term(x) for x in a[1]))


def render_goal(g, prec=1200):
    k = g[0]
    if k == "call":
        return render_atom([g[1], g[2]])
    if k == "and":
        s = ", ".join(render_goal(x, 999) for x in g[1])
        return "(%s)" % s if prec < 1000 else s
    if k == "or":
        s = " ; ".join(render_goal(x, 1000) for x in g[1])
        return "(%s)" % s
    if k == "not":
        return "\\+ " + render_goal(g[1], 200)
    if k in ("=", "\\="):
        return "%s %s %s" % (render_term(g[1]), k, render_term(g[2]))
    if k in ("findall", "all"):
        return "%s(%s, %s, %s)" % (k, render_term(g[1]), render_goal(g[2], 999), render_term(g[3]))
    if k in ("true", "fail"):
        return k
    raise ValueError(g)


def render_statement(s):
    k = s[0]
    if k == "cl":
        if s[2] is None:
            return render_atom(s[1]) + "."
        return "%s :- %s." % (render_atom(s[1]), render_goal(s[2]))
    if k == "pf":
        return "%s::%s." % (s[1], render_atom(s[2]))
    if k == "ad":
        heads = "; ".join("%s::%s" % (p, render_atom(a)) for p, a in s[1])
        if s[2] is None:
            return heads + "."
        return "%s :- %s." % (heads, render_goal(s[2]))
    if k == "query":
        return "query(%s)." % render_atom(s[1])
    raise ValueError(s)


def render_program(prog):
    return "\n".join(render_statement(s) for s in prog) + "\n"


# ------------------------------------------------------------------------------------------------ terms

def to_internal(t, ren):
    """JSON term -> internal term; variables are renamed through the dict `ren` (name -> id), filled on demand by
    ren['#']() ."""
    k = t[0]
    if k == "a":
        return ("a", t[1])
    if k == "i":
        return ("i", t[1])
    if k == "v":
        name = t[1]
        if name == "_":
            return ("v", ren["#"]())
        v = ren.get(name)
        if v is None:
            v = ren[name] = ren["#"]()
        return ("v", v)
    if k == "c":
        return ("c", t[1], tuple(to_internal(x, ren) for x in t[2]))
    if k == "l":
        tail = NIL if t[2] is None else to_internal(t[2], ren)
        for x in reversed(t[1]):
            tail = ("c", ".", (to_internal(x, ren), tail))
        return tail
    raise ValueError(t)


def to_json(t):
    """internal term -> JSON term (lists folded back)."""
    k = t[0]
    if k == "a":
        if t == NIL:
            return ["l", [], None]
        return ["a", t[1]]
    if k == "i":
        return ["i", t[1]]
    if k == "v":
        return ["v", "_G%s" % (t[1],)]
    if t[1] == "." and len(t[2]) == 2:
        items = []
        while t[0] == "c" and t[1] == "." and len(t[2]) == 2:
            items.append(to_json(t[2][0]))
            t = t[2][1]
        return ["l", items, None if t == NIL else to_json(t)]
    return ["c", t[1], [to_json(x) for x in t[2]]]


def walk(t, s):
    while t[0] == "v":
        b = s.get(t[1])
        if b is None:
            return t
        t = b
    return t


def resolve(t, s):
    t = walk(t, s)
    if t[0] == "c":
        return ("c", t[1], tuple(resolve(x, s) for x in t[2]))
    return t


def is_ground(t):
    if t[0] == "v":
        return False
    if t[0] == "c":
        return all(is_ground(x) for x in t[2])
    return True


def unify(a, b, s):
    """Unification without occurs check (standard Prolog); returns the extended substitution or None.  The
    substitution passed in is never modified."""
    stack = [(a, b)]
    copied = False
    while stack:
        x, y = stack.pop()
        x = walk(x, s)
        y = walk(y, s)
        if x == y:
            continue
        if x[0] == "v":
            if not copied:
                s = dict(s)
                copied = True
            s[x[1]] = y
        elif y[0] == "v":
            if not copied:
                s = dict(s)
                copied = True
            s[y[1]] = x
        elif x[0] == "c" and y[0] == "c":
            if x[1] != y[1] or len(x[2]) != len(y[2]):
                return None
            stack.extend(zip(x[2], y[2]))
        else:
            return None
    return s


def canonical(terms):
    """Tuple of internal terms with variables numbered by first occurrence (answers modulo renaming)."""
    names = {}

    def go(t):
        if t[0] == "v":
            n = names.get(t[1])
            if n is None:
                n = names[t[1]] = len(names)
            return ("v", n)
        if t[0] == "c":
            return ("c", t[1], tuple(go(x) for x in t[2]))
        return t

    return tuple(go(t) for t in terms)


def show(t):
    """Internal term -> text in the way ProbLog prints terms (lists as [a, b], arguments without spaces)."""
    k = t[0]
    if k == "a":
        return t[1]
    if k == "i":
        return str(t[1])
    if k == "v":
        return "_%s" % (t[1],)
    if t[1] == "." and len(t[2]) == 2:
        items = []
        while t[0] == "c" and t[1] == "." and len(t[2]) == 2:
            items.append(show(t[2][0]))
            t = t[2][1]
        if t == NIL:
            return "[%s]" % ", ".join(items)
        return "[%s|%s]" % (", ".join(items), show(t))
    return "%s(%s)" % (t[1], ",".join(show(x) for x in t[2]))


def list_items(t):
    """Items of a proper internal list, or None."""
    items = []
    while t[0] == "c" and t[1] == "." and len(t[2]) == 2:
        items.append(t[2][0])
        t = t[2][1]
    if t != NIL:
        return None
    return items


def make_list(items):
    t = NIL
    for x in reversed(items):
        t = ("c", ".", (x, t))
    return t


# ------------------------------------------------------------------------------------------------ SLD

class Interp(object):
    """SLD interpreter over the deterministic clauses of `prog`.

    Probabilistic statements (C19) are turned into clauses ending in a choice goal: `p::h :- b` (statement i, head j)
    becomes `h :- b, choice(i, Vars, j)` where Vars are all variables of the statement; the choice goal succeeds iff
    the current world assigns value j to the choice (i, values of Vars).  Unassigned choices raise NeedChoice.
    """

    def __init__(self, prog, budget=50000, world=None, max_depth=400):
        self.clauses = {}  # (pred, arity) -> [(head args json, body json, nvars hint)]
        self.order = []
        self.budget = budget
        self.steps = 0
        self.counter = 0
        self.world = world if world is not None else {}
        self.max_depth = max_depth
        self.floundered = False  # a negated goal was called with unbound variables
        self.dup_call = False  # some call produced the same answer twice
        self.track_dups = True
        self.nonground_choice = False
        self.track_proofs = False  # thread the list of proof leaves through the substitution (key '#p')
        self.findall_log = []  # with track_proofs: (kind, proofs, leaf use counts) per evaluated findall/all
        self.scopes = [{}]
        self.all_log = []  # per evaluated all/3: the distinct answer substitutions in order of first occurrence
        self.all_choices = False  # C19 'maximal world': every choice goal succeeds (and is a proof leaf)
        self.certain = False  # inside a negation of the maximal run: choices and negations fail
        self.nclauses = 0
        for idx, s in enumerate(prog):
            k = s[0]
            if k == "cl":
                self._add(s[1], s[2])
            elif k == "pf":
                self._add(s[2], ["choice", idx, [], 0, [s[1]]])
            elif k == "ad":
                vs = statement_vars(s)
                probs = [p for p, _ in s[1]]
                for j, (p, a) in enumerate(s[1]):
                    ch = ["choice", idx, [["v", v] for v in vs], j, probs]
                    body = ch if s[2] is None else ["and", [s[2], ch]]
                    self._add(a, body)

    def _add(self, head, body):
        self.nclauses += 1
        self.clauses.setdefault((head[0], len(head[1])), []).append((head[1], body, self.nclauses))

    def _leaf(self, s, leaf):
        """Record a proof leaf (fact instance, builtin instance, choice) or a marker ('neg',) / ('findall',) in the
        substitution, and count how often the leaf is generated inside the current findall scope (in successful
        and in failing branches alike)."""
        s = dict(s)
        s["#p"] = (leaf, s.get("#p"))
        if len(leaf) > 1:
            sc = self.scopes[-1]
            sc[leaf] = sc.get(leaf, 0) + 1
        return s

    @staticmethod
    def proof_of(s, stop=None):
        """Leaves recorded in s (oldest first) after the proof prefix `stop`."""
        out = []
        p = s.get("#p")
        while p is not None and p is not stop:
            out.append(p[0])
            p = p[1]
        out.reverse()
        return tuple(out)

    def _fresh(self):
        self.counter += 1
        return self.counter

    def _ren(self):
        return {"#": self._fresh}

    def _tick(self):
        self.steps += 1
        if self.steps > self.budget:
            raise Budget()

    # goals are solved on JSON goals + a renaming dict (clause instance) + substitution
    def solve(self, g, ren, s, depth, cj=False):
        """cj: the goal is (inside) a conjunct of a conjunction with at least two goals."""
        k = g[0]
        if depth > self.max_depth:
            raise Budget()
        if k == "call":
            args = tuple(to_internal(t, ren) for t in g[2])
            for s2 in self.call(g[1], args, s, depth, cj):
                yield s2
        elif k == "and":
            for s2 in self._conj(g[1], 0, ren, s, depth, cj or len(g[1]) >= 2):
                yield s2
        elif k == "or":
            if self.track_dups:
                # ProbLog compiles a disjunction into an auxiliary predicate over its variables: equal answers of the
                # branches are merged like the answers of a call
                keyterms = tuple(to_internal(["v", v], ren) for v in goal_vars(g, []))
                it = self._grouped(self._branches(g[1], ren, s, depth, cj), s, keyterms, cj)
            else:
                it = self._branches(g[1], ren, s, depth, cj)
            for s2 in it:
                yield s2
        elif k == "not":
            self._tick()
            inner = g[1]
            if not self._goal_ground(inner, ren, s):
                self.floundered = True
            found = False
            if self.certain:
                return  # 'certain' mode (inside a negation of the maximal run): nothing negative is certain
            for _ in self.solve(inner, ren, s, depth + 1):
                found = True
                if not self.track_proofs:
                    break  # (with proof tracking the goal is exhausted: ProbLog evaluates it completely)
            if self.all_choices:
                # maximal run: the negation is possible unless the goal has a proof without choices and negation
                saved = (self.track_proofs, self.track_dups)
                self.certain, self.track_proofs, self.track_dups = True, False, False
                try:
                    found = False
                    for _ in self.solve(inner, ren, s, depth + 1):
                        found = True
                        break
                finally:
                    self.certain = False
                    self.track_proofs, self.track_dups = saved
            if found:
                return
            yield self._leaf(s, ("neg",)) if self.track_proofs else s
        elif k == "=":
            self._tick()
            a, b = to_internal(g[1], ren), to_internal(g[2], ren)
            s2 = unify(a, b, s)
            if s2 is not None:
                yield self._leaf(s2, ("=", resolve(a, s2), resolve(b, s2))) if self.track_proofs else s2
        elif k == "\\=":
            self._tick()
            a, b = to_internal(g[1], ren), to_internal(g[2], ren)
            if unify(a, b, s) is None:
                yield self._leaf(s, ("\\=", resolve(a, s), resolve(b, s))) if self.track_proofs else s
        elif k in ("findall", "all"):
            self._tick()
            tmpl = to_internal(g[1], ren)
            # pattern variables are renamed per solution (findall copies its results)
            sols = []
            proofs = []
            keys = []
            gvars = None
            if k == "all" or self.track_proofs:
                gvars = tuple(to_internal(["v", v], ren) for v in goal_vars(g[2], term_vars(g[1], [])))
            self.scopes.append({})
            try:
                for s2 in self.solve(g[2], ren, s, depth + 1):
                    sols.append(self._copy_fresh(resolve(tmpl, s2)))
                    if gvars is not None:
                        keys.append(canonical(tuple(resolve(v, s2) for v in gvars)))
                    if self.track_proofs:
                        proofs.append(self.proof_of(s2, s.get("#p")))
            finally:
                uses = self.scopes.pop()
            if self.track_proofs:
                # the findall goal itself is evaluated as a clause over (template, goal variables)
                groups = {}
                for key, pr in zip(keys, proofs):
                    groups.setdefault(key, []).append(not any(len(x) > 1 for x in pr))
                if any(len(v) > 1 and any(v) for v in groups.values()):
                    uses["#leafless-dup"] = True
                self.findall_log.append((k, proofs, uses))
                s = self._leaf(s, ("findall",))
            if k == "all":
                # one element per distinct answer substitution of the goal (template + goal variables)
                seen = set()
                uniq = []
                order = []
                for t, key in zip(sols, keys):
                    if key not in seen:
                        seen.add(key)
                        uniq.append(t)
                        order.append(key)
                sols = uniq
                self.all_log.append(order)
                if not sols:
                    return
            s2 = unify(to_internal(g[3], ren), make_list(sols), s)
            if s2 is not None:
                yield s2
        elif k == "true":
            yield s
        elif k == "fail":
            return
        elif k == "choice":
            vals = tuple(resolve(to_internal(t, ren), s) for t in g[2])
            if not all(is_ground(v) for v in vals):
                self.nonground_choice = True
                raise Unsupported("non-ground probabilistic choice")
            key = (g[1], vals)
            if self.certain:
                return
            if self.all_choices:
                yield self._leaf(s, ("choice", key, g[3])) if self.track_proofs else s
                return
            if key not in self.world:
                raise NeedChoice(key, g[4])
            if self.world[key] == g[3]:
                yield self._leaf(s, ("choice", key, g[3])) if self.track_proofs else s
        else:
            raise ValueError(g)

    def _branches(self, subs, ren, s, depth, cj):
        for sub in subs:
            for s2 in self.solve(sub, ren, s, depth + 1, cj):
                yield s2

    def _grouped(self, it, entry, keyterms, cj):
        """Pass the solutions of a call / disjunction through and record, in the current findall scope, whether equal
        answers occur: '#dup-in-conj' (inside a conjunction) and '#leafless-dup' (one of the proofs of the repeated
        answer has no leaf at all: its node is TRUE and absorbs the other proofs)."""
        seen = {}
        stop = entry.get("#p")
        for s3 in it:
            c = canonical(tuple(resolve(a, s3) for a in keyterms))
            lf = self.track_proofs and not any(len(x) > 1 for x in self.proof_of(s3, stop))
            if c in seen:
                self.dup_call = True
                if cj:
                    self.scopes[-1]["#dup-in-conj"] = True
                if lf or seen[c]:
                    self.scopes[-1]["#leafless-dup"] = True
                seen[c] = seen[c] or lf
            else:
                seen[c] = lf
            yield s3

    def _conj(self, goals, i, ren, s, depth, cj=False):
        if i == len(goals):
            yield s
            return
        for s2 in self.solve(goals[i], ren, s, depth + 1, cj):
            for s3 in self._conj(goals, i + 1, ren, s2, depth, cj):
                yield s3

    def _goal_ground(self, g, ren, s):
        k = g[0]
        if k == "call":
            return all(is_ground(resolve(to_internal(t, ren), s)) for t in g[2])
        if k in ("and", "or"):
            return all(self._goal_ground(x, ren, s) for x in g[1])
        if k == "not":
            return self._goal_ground(g[1], ren, s)
        if k in ("=", "\\="):
            return is_ground(resolve(to_internal(g[1], ren), s)) and is_ground(resolve(to_internal(g[2], ren), s))
        return True

    def _copy_fresh(self, t):
        m = {}

        def go(x):
            if x[0] == "v":
                if x[1] not in m:
                    m[x[1]] = ("v", self._fresh())
                return m[x[1]]
            if x[0] == "c":
                return ("c", x[1], tuple(go(y) for y in x[2]))
            return x

        return go(t)

    def call(self, pred, args, s, depth, cj=False):
        if self.track_dups:
            return self._grouped(self._resolve(pred, args, s, depth, cj), s, args, cj)
        return self._resolve(pred, args, s, depth, cj)

    def _resolve(self, pred, args, s, depth, cj):
        cls = self.clauses.get((pred, len(args)))
        if cls is None:
            return
        for hargs, body, cid in cls:
            self._tick()
            ren = self._ren()
            s2 = s
            for ha, ca in zip(hargs, args):
                s2 = unify(to_internal(ha, ren), ca, s2)
                if s2 is None:
                    break
            if s2 is None:
                continue
            if body is None:
                if self.track_proofs:
                    s2 = self._leaf(s2, ("fact", cid))
                yield s2
            else:
                for s3 in self.solve(body, ren, s2, depth + 1, cj):
                    yield s3

    def query(self, pred, args_json):
        """All answers of `pred(args)` in SLD order with duplicates: list of tuples of internal (resolved) terms."""
        ren = self._ren()
        args = tuple(to_internal(t, ren) for t in args_json)
        out = []
        for s in self.call(pred, args, {}, 0):
            out.append(tuple(resolve(a, s) for a in args))
        return out

    def solutions(self, goal_json, template_json):
        ren = self._ren()
        tmpl = to_internal(template_json, ren)
        out = []
        for s in self.solve(goal_json, ren, {}, 0):
            out.append(resolve(tmpl, s))
        return out


def order_robust(proofs, uses):
    """Sufficient condition under which ProbLog's findall order heuristic (solutions sorted by the largest node id of
    their proof; node ids grow in creation order; fact clauses, builtin calls and tabled goals keep the node of their
    first use, also when that use was in a failing branch) provably reproduces the SLD list: every solution after
    the first ends its proof with a leaf (fact clause or =/\\= instance) that is generated exactly once in the whole
    evaluation of this findall, and no call inside a conjunction returns the same answer twice (the engine merges
    equal answers of a call into one node; the conjunction built on top of it hides the separate proofs from the
    ordering).  `proofs`: the proofs (tuples of leaves) of the solutions of one findall in SLD order;
    `uses`: how often each leaf was generated."""
    if uses.get("#dup-in-conj"):
        return False
    for k, p in enumerate(proofs):
        if k > 0:
            if not p:
                return False
            last = p[-1]
            if len(last) == 1 or uses.get(last, 0) != 1:
                return False
    return True


def multiplicity_robust(uses):
    """No call, disjunction or findall goal returned an answer twice with a proof that has no leaf at all (only
    negations / nested findalls).  Such a proof is the node TRUE, a disjunction with a TRUE child is TRUE, and ProbLog's
    findall then shows all proofs of that answer as ONE element."""
    return not uses.get("#leafless-dup")


def sort_lists(t):
    """The term with the items of every proper list sorted (to compare terms modulo the order inside lists)."""
    if t[0] != "c":
        return t
    items = list_items(t)
    if items is not None:
        return make_list(sorted((sort_lists(x) for x in items), key=repr))
    return ("c", t[1], tuple(sort_lists(x) for x in t[2]))


def dedup_lists(t):
    """The term with the items of every proper list sorted and made unique (terms modulo order and multiplicity)."""
    if t[0] != "c":
        return t
    items = list_items(t)
    if items is not None:
        return make_list(sorted(set(dedup_lists(x) for x in items), key=repr))
    return ("c", t[1], tuple(dedup_lists(x) for x in t[2]))


def term_vars(t, acc):
    k = t[0]
    if k == "v":
        if t[1] != "_" and t[1] not in acc:
            acc.append(t[1])
    elif k == "c":
        for x in t[2]:
            term_vars(x, acc)
    elif k == "l":
        for x in t[1]:
            term_vars(x, acc)
        if t[2] is not None:
            term_vars(t[2], acc)
    return acc


def goal_vars(g, acc):
    k = g[0]
    if k == "call":
        for t in g[2]:
            term_vars(t, acc)
    elif k in ("and", "or"):
        for x in g[1]:
            goal_vars(x, acc)
    elif k == "not":
        goal_vars(g[1], acc)
    elif k in ("=", "\\="):
        term_vars(g[1], acc)
        term_vars(g[2], acc)
    elif k in ("findall", "all"):
        term_vars(g[1], acc)
        goal_vars(g[2], acc)
        term_vars(g[3], acc)
    return acc


def statement_vars(s):
    """Variables of a probabilistic statement in order of first occurrence (heads, then body)."""
    acc = []
    if s[0] == "ad":
        for _, a in s[1]:
            for t in a[1]:
                term_vars(t, acc)
        if s[2] is not None:
            goal_vars(s[2], acc)
    elif s[0] == "pf":
        for t in s[2][1]:
            term_vars(t, acc)
    return acc


# ------------------------------------------------------------------------------------------------ possible worlds

def enumerate_worlds(prog, run, max_leaves=4096, budget=50000):
    """Decision-tree enumeration of the possible worlds that matter for `run`.

    `run(interp)` evaluates whatever is observed with an Interp whose world is a PARTIAL assignment; whenever the SLD
    run needs an unassigned choice the tree branches on its values (heads 0..n-1 and 'none').  Returns
    ([(weight: Fraction, result of run, world dict, interpreter), ...] for every leaf with positive weight, set of
    choice keys met).  Choices are keyed by (statement index, tuple of the statement's variable values).  Raises
    Budget when the tree has more than max_leaves leaves."""
    out = []
    keys = set()
    stack = [({}, Fraction(1))]
    while stack:
        world, w = stack.pop()
        it = Interp(prog, budget=budget, world=world)
        try:
            res = run(it)
        except NeedChoice as nc:
            keys.add(nc.key)
            probs = [Fraction(p) for p in nc.probs]
            rest = 1 - sum(probs)
            # push in reverse so that value 0 is explored first (only matters for determinism of the output order)
            opts = [(j, p) for j, p in enumerate(probs)] + [(None, rest)]
            for j, p in reversed(opts):
                if p <= 0:
                    continue
                w2 = dict(world)
                w2[nc.key] = j
                stack.append((w2, w * p))
            if len(stack) + len(out) > max_leaves:
                raise Budget()
            continue
        out.append((w, res, world, it))
    return out, keys


# ------------------------------------------------------------------------------------------------ bottom-up Datalog

def _dnf(g):
    """Goal -> list of conjunctions (lists of literals call/=/\\=)."""
    k = g[0]
    if k in ("call", "=", "\\="):
        return [[g]]
    if k == "true":
        return [[]]
    if k == "fail":
        return []
    if k == "and":
        acc = [[]]
        for sub in g[1]:
            d = _dnf(sub)
            acc = [a + b for a in acc for b in d]
        return acc
    if k == "or":
        acc = []
        for sub in g[1]:
            acc.extend(_dnf(sub))
        return acc
    raise Unsupported("bottom-up evaluation does not cover %s" % k)


def _flat(t):
    if t[0] not in ("a", "i", "v"):
        raise Unsupported("function symbol in a Datalog program")
    return t


def least_model(prog, max_facts=20000):
    """Least Herbrand model of a definite Datalog program (semi-naive).  Returns {(pred, arity): set of tuples of
    ('a', name) / ('i', n)}.  `=`/`\\=` are evaluated left to right as in Prolog (\\= on an unbound variable is
    Unsupported: it is not a logical test then)."""
    rules = []
    for s in prog:
        if s[0] != "cl":
            raise Unsupported("statement %s" % s[0])
        head = (s[1][0], [_flat(t) for t in s[1][1]])
        if s[2] is None:
            rules.append((head, []))
        else:
            for conj in _dnf(s[2]):
                for l in conj:
                    if l[0] == "call":
                        for t in l[2]:
                            _flat(t)
                    else:
                        _flat(l[1])
                        _flat(l[2])
                rules.append((head, conj))
    total = {}
    delta = {}

    def val(t, b):
        if t[0] == "v":
            if t[1] == "_":
                return None
            return b.get(t[1])
        return (t[0], t[1])

    def match(args, tup, b):
        copied = False
        for p, g in zip(args, tup):
            if p[0] == "v":
                if p[1] == "_":
                    continue
                cur = b.get(p[1])
                if cur is None:
                    if not copied:
                        b = dict(b)
                        copied = True
                    b[p[1]] = g
                elif cur != g:
                    return None
            elif (p[0], p[1]) != g:
                return None
        return b

    def eval_body(body, i, b, sources, out_head):
        if i == len(body):
            tup = []
            for t in out_head[1]:
                v = val(t, b)
                if v is None:
                    raise Unsupported("rule is not range restricted")
                tup.append(v)
            yield tuple(tup)
            return
        l = body[i]
        if l[0] == "call":
            key = (l[1], len(l[2]))
            for tup in sources[i].get(key, ()):
                b2 = match(l[2], tup, b)
                if b2 is not None:
                    for r in eval_body(body, i + 1, b2, sources, out_head):
                        yield r
        else:
            x, y = val(l[1], b), val(l[2], b)
            if l[0] == "=":
                if x is not None and y is not None:
                    if x == y:
                        for r in eval_body(body, i + 1, b, sources, out_head):
                            yield r
                elif x is None and y is None:
                    if l[1][0] == "v" and l[2][0] == "v" and l[1][1] != "_" and l[2][1] != "_":
                        raise Unsupported("aliasing of two unbound variables")
                    for r in eval_body(body, i + 1, b, sources, out_head):
                        yield r
                else:
                    var, v = (l[1], y) if x is None else (l[2], x)
                    b2 = b
                    if var[1] != "_":
                        b2 = dict(b)
                        b2[var[1]] = v
                    for r in eval_body(body, i + 1, b2, sources, out_head):
                        yield r
            else:
                if x is None or y is None:
                    raise Unsupported("\\= on an unbound variable")
                if x != y:
                    for r in eval_body(body, i + 1, b, sources, out_head):
                        yield r

    # round 0: rules without call literals fire once; afterwards semi-naive
    first = True
    nfacts = 0
    while True:
        new = {}
        for head, body in rules:
            calls = [i for i, l in enumerate(body) if l[0] == "call"]
            hkey = (head[0], len(head[1]))
            if first:
                plans = [None]
            else:
                plans = calls
            for j in plans:
                if first:
                    sources = [total] * len(body)  # total is empty in the first round: only call-free bodies fire
                    if calls:
                        continue
                else:
                    # literals before j: facts known before this round (old = total - delta); j: delta; after: total
                    sources = []
                    for i in range(len(body)):
                        if i < j:
                            sources.append(old)
                        elif i == j:
                            sources.append(delta)
                        else:
                            sources.append(total)
                for tup in eval_body(body, 0, {}, sources, head):
                    if tup not in total.get(hkey, ()):
                        new.setdefault(hkey, set()).add(tup)
        if not new:
            break
        old = dict((k, set(v)) for k, v in total.items())
        for k, v in new.items():
            total.setdefault(k, set()).update(v)
            nfacts += len(v)
        if nfacts > max_facts:
            raise Budget()
        delta = new
        first = False
    return total


def naive_model(prog):
    """Naive fixpoint (used to cross-check least_model in the self tests)."""
    rules = []
    for s in prog:
        if s[2] is None:
            rules.append((s[1], []))
        else:
            for conj in _dnf(s[2]):
                rules.append((s[1], conj))
    facts = set()
    changed = True
    while changed:
        changed = False
        for head, body in rules:
            def rec(i, b):
                if i == len(body):
                    yield b
                    return
                l = body[i]
                if l[0] == "call":
                    for (p, tup) in list(facts):
                        if p != l[1] or len(tup) != len(l[2]):
                            continue
                        b2 = dict(b)
                        ok = True
                        for a, g in zip(l[2], tup):
                            if a[0] == "v":
                                if a[1] == "_":
                                    continue
                                if b2.setdefault(a[1], g) != g:
                                    ok = False
                                    break
                            elif (a[0], a[1]) != g:
                                ok = False
                                break
                        if ok:
                            for r in rec(i + 1, b2):
                                yield r
                else:
                    def v(t):
                        return b.get(t[1]) if t[0] == "v" else (t[0], t[1])
                    x, y = v(l[1]), v(l[2])
                    if l[0] == "=":
                        if x is None and y is None:
                            raise Unsupported("aliasing")
                        if x is None or y is None:
                            b2 = dict(b)
                            b2[(l[1] if x is None else l[2])[1]] = y if x is None else x
                            for r in rec(i + 1, b2):
                                yield r
                        elif x == y:
                            for r in rec(i + 1, b):
                                yield r
                    else:
                        if x is None or y is None:
                            raise Unsupported("\\=")
                        if x != y:
                            for r in rec(i + 1, b):
                                yield r
            for b in list(rec(0, {})):
                tup = tuple(b[t[1]] if t[0] == "v" else (t[0], t[1]) for t in head[1])
                if (head[0], tup) not in facts:
                    facts.add((head[0], tup))
                    changed = True
    out = {}
    for p, tup in facts:
        out.setdefault((p, len(tup)), set()).add(tup)
    return out


def model_answers(model, pred, args_json):
    """Answers of the query pred(args) in a model: set of tuples of internal terms (the full argument tuples)."""
    out = set()
    for tup in model.get((pred, len(args_json)), ()):
        b = {}
        ok = True
        for a, g in zip(args_json, tup):
            if a[0] == "v":
                if a[1] == "_":
                    continue
                if b.setdefault(a[1], g) != g:
                    ok = False
                    break
            elif (a[0], a[1]) != g:
                ok = False
                break
        if ok:
            out.add(tuple(tup))
    return out


# ------------------------------------------------------------------------------------------------ text -> term

class ParseError(Exception):
    pass


def parse_term(text):
    """Parse the text ProbLog prints for a term (atoms, integers, variables, compound terms, lists with ', '
    separators and '|' tails) into an internal term.  Variables (X1, _12, ...) become ('v', name)."""
    pos = [0]
    n = len(text)

    def ws():
        while pos[0] < n and text[pos[0]] == " ":
            pos[0] += 1

    def term():
        ws()
        if pos[0] >= n:
            raise ParseError(text)
        c = text[pos[0]]
        if c == "[":
            pos[0] += 1
            ws()
            items = []
            tail = NIL
            if pos[0] < n and text[pos[0]] == "]":
                pos[0] += 1
                return NIL
            while True:
                items.append(term())
                ws()
                if pos[0] >= n:
                    raise ParseError(text)
                c2 = text[pos[0]]
                pos[0] += 1
                if c2 == ",":
                    continue
                if c2 == "|":
                    tail = term()
                    ws()
                    if pos[0] >= n or text[pos[0]] != "]":
                        raise ParseError(text)
                    pos[0] += 1
                    break
                if c2 == "]":
                    break
                raise ParseError(text)
            t = tail
            for x in reversed(items):
                t = ("c", ".", (x, t))
            return t
        start = pos[0]
        if c == "-" or c.isdigit():
            pos[0] += 1
            while pos[0] < n and text[pos[0]].isdigit():
                pos[0] += 1
            tok = text[start:pos[0]]
            try:
                return ("i", int(tok))
            except ValueError:
                raise ParseError(text)
        if c == "'":
            pos[0] += 1
            while pos[0] < n and text[pos[0]] != "'":
                pos[0] += 1
            pos[0] += 1
            name = text[start:pos[0]]
        else:
            while pos[0] < n and (text[pos[0]].isalnum() or text[pos[0]] == "_"):
                pos[0] += 1
            name = text[start:pos[0]]
            if not name:
                raise ParseError(text)
        if pos[0] < n and text[pos[0]] == "(":
            pos[0] += 1
            args = []
            while True:
                args.append(term())
                ws()
                if pos[0] >= n:
                    raise ParseError(text)
                c2 = text[pos[0]]
                pos[0] += 1
                if c2 == ",":
                    continue
                if c2 == ")":
                    break
                raise ParseError(text)
            return ("c", name, tuple(args))
        if name[0].isupper() or name[0] == "_":
            return ("v", name)
        return ("a", name)

    t = term()
    ws()
    if pos[0] != n:
        raise ParseError(text)
    return t
