"""atheris (libFuzzer) target for C17 / C27: coverage-guided fuzzing of the ProbLog parser.

Run as a sub-process by pbt/props/c17.py (thorough tier) or by hand:

    PYTHONPATH=/repo:/verif:/verif/.deps /venv/bin/python -m pbt.fuzz_c17 [--mode parse|infer] [--skip-file F]
        <corpus dir> -runs=N -seed=S -max_len=64 -artifact_prefix=<dir>/

The oracle is the one of the property: the input (bytes decoded as UTF-8, errors='ignore') is parsed with
`list(PrologString(s))`; a ProbLogError subclass or resource exhaustion is fine, anything else is a finding.
libFuzzer stops at the first uncaught exception, which would let one root cause hide every other one; so the
target *records* findings instead of raising: each new signature (exception class + innermost problog frame) writes
its input to `<artifact dir>/finding-<n>.txt` plus `<artifact dir>/finding-<n>.sig`.  Signatures listed in the
--skip-file (one per line) are counted but not recorded.  The driver re-checks every recorded input through the
check's own oracle, so nothing is trusted from here but the input strings."""
import os
import sys


def main(argv):
    mode = "parse"
    skip_file = None
    rest = [argv[0]]
    i = 1
    while i < len(argv):
        if argv[i] == "--mode":
            mode = argv[i + 1]
            i += 2
        elif argv[i] == "--skip-file":
            skip_file = argv[i + 1]
            i += 2
        else:
            rest.append(argv[i])
            i += 1
    artifact_dir = None
    for a in rest:
        if a.startswith("-artifact_prefix="):
            artifact_dir = a.split("=", 1)[1]
    if artifact_dir is None:
        import tempfile

        artifact_dir = tempfile.mkdtemp(prefix="c17-atheris-")
    os.makedirs(artifact_dir, exist_ok=True)
    skip = set()
    if skip_file and os.path.exists(skip_file):
        with open(skip_file, encoding="utf8") as f:
            skip = set(l.rstrip("\n") for l in f if l.strip())

    import warnings

    warnings.simplefilter("ignore")
    import atheris

    with atheris.instrument_imports(include=["problog"]):
        import problog  # noqa
        from problog.program import PrologString
        from problog.errors import ProbLogError
        import problog.parser  # noqa
        import problog.logic  # noqa

    from pbt.core import plrun

    seen = {}
    counts = {"execs": 0, "skipped": 0}

    def record(s, exc):
        sig = plrun.exc_signature(exc)
        if sig in skip:
            counts["skipped"] += 1
            return
        if sig in seen:
            if len(s) >= seen[sig][1]:
                return
            n = seen[sig][0]
        else:
            n = len(seen)
        seen[sig] = (n, len(s))
        with open(os.path.join(artifact_dir, "finding-%d.txt" % n), "w", encoding="utf8") as f:
            f.write(s)
        with open(os.path.join(artifact_dir, "finding-%d.sig" % n), "w", encoding="utf8") as f:
            f.write(sig)

    def one_input(data):
        counts["execs"] += 1
        s = data.decode("utf8", errors="ignore")
        try:
            if mode == "parse":
                list(PrologString(s))
            else:
                r = plrun.run_problog(s)
                if r[0] == "crash":
                    raise _Crash(r[1])
        except _Crash as c:
            sig = c.args[0]
            if sig not in skip and (sig not in seen or len(s) < seen[sig][1]):
                n = seen[sig][0] if sig in seen else len(seen)
                seen[sig] = (n, len(s))
                with open(os.path.join(artifact_dir, "finding-%d.txt" % n), "w", encoding="utf8") as f:
                    f.write(s)
                with open(os.path.join(artifact_dir, "finding-%d.sig" % n), "w", encoding="utf8") as f:
                    f.write(sig)
        except ProbLogError:
            pass
        except (RecursionError, MemoryError):
            pass
        except Exception as exc:  # noqa
            record(s, exc)

    atheris.Setup(rest, one_input)
    atheris.Fuzz()


class _Crash(Exception):
    pass


if __name__ == "__main__":
    main(sys.argv)
