"""One shard of a check: runs every sub-check of a property for its share of the budget and writes a JSON
summary.  Started by pbt.run as `python -m pbt.core.worker <json args>`."""
import importlib
import itertools
import json
import os
import sys
import time
import traceback

from .api import CaseTimeout, Failure, Outcome, case_hash
from . import plrun
from . import findings


class ShardState(object):
    def __init__(self):
        self.evaluations = 0
        self.nontrivial = set()
        self.features = {}
        self.classes = {}
        self.inconclusive = {}
        self.excluded_known = {}
        self.samples = []
        self.nt_samples = []
        self.violations = []
        self.extra = {}
        self.exhaustive_done = {}
        self.per_subcheck = {}

    def to_json(self):
        return {
            "evaluations": self.evaluations,
            "nontrivial": sorted(self.nontrivial),
            "features": self.features,
            "classes": self.classes,
            "inconclusive": self.inconclusive,
            "excluded_known": self.excluded_known,
            "samples": self.nt_samples[:3] + self.samples[:2],
            "violations": self.violations,
            "extra": self.extra,
            "exhaustive_done": self.exhaustive_done,
            "per_subcheck": self.per_subcheck,
        }


def _bump(d, k, n=1):
    d[k] = d.get(k, 0) + n


def run_case(mod, sub, case, timeout, state, count=True):
    """Run the oracle on one case.  Returns (outcome, failure-or-None, known-id-or-None)."""
    try:
        with plrun.watchdog(timeout):
            out = sub.check(case)
    except CaseTimeout:
        plrun.kill_children()
        out = Outcome(inconclusive="timeout")
    except plrun.RESOURCE_ERRORS as exc:
        out = Outcome(inconclusive=type(exc).__name__)
    if not isinstance(out, Outcome):
        raise TypeError("check() must return Outcome, got %r" % (out,))
    known = None
    if out.failure is not None:
        known = findings.match(mod, sub.name, case, out.failure)
    if count:
        state.evaluations += 1
        _bump(state.per_subcheck, sub.name)
        for f in out.features:
            _bump(state.features, f)
        for c in out.classes:
            _bump(state.classes, c)
        for k, v in out.extra.items():
            _bump(state.extra, k, v)
        if out.inconclusive:
            _bump(state.inconclusive, out.inconclusive)
        if known is not None:
            _bump(state.excluded_known, known)
        if out.nontrivial and not out.inconclusive:
            h = case_hash(case)
            if h not in state.nontrivial:
                state.nontrivial.add(h)
                if len(state.nt_samples) < 3 and out.failure is None:
                    state.nt_samples.append(_sample(sub, case, out))
        elif len(state.samples) < 2 and out.failure is None and not out.inconclusive:
            state.samples.append(_sample(sub, case, out))
    return out, out.failure, known


def _sample(sub, case, out):
    if out.sample is not None:
        s = out.sample
    elif sub.render is not None:
        s = sub.render(case)
    else:
        s = case
    txt = json.dumps(s, default=str)
    if len(txt) > 3000:
        s = txt[:3000] + "...(truncated)"
    return {"subcheck": sub.name, "case": s}


class _Violation(Exception):
    pass


def run_hypothesis(mod, sub, n_examples, seed, tier, timeout, state):
    import hypothesis
    from hypothesis import given, settings, HealthCheck, Phase

    # shrinking is bounded by call count and by CPU seconds; this affects only how small the reported
    # counterexample is, never the verdict
    shrink_budget = 3000 if tier == "quick" else 20000
    shrink_cpu = 45.0 if tier == "quick" else 600.0
    st = {"failing": {}, "calls_after_fail": 0, "last": None, "first": None, "t_fail": None,
          "timeouts0": state.inconclusive.get("timeout", 0)}

    @hypothesis.seed(seed)
    @settings(max_examples=n_examples, database=None, deadline=None, derandomize=False,
              report_multiple_bugs=False, suppress_health_check=list(HealthCheck),
              phases=[Phase.generate, Phase.shrink], print_blob=False)
    @given(sub.strategy())
    def test(case):
        # NB: a single raise site, so that Hypothesis sees one "interesting origin" and shrinks it
        searching = st["first"] is None
        failure = None
        h = None
        if searching and state.inconclusive.get("timeout", 0) - st["timeouts0"] >= MAX_TIMEOUTS_PER_SUBCHECK:
            state.inconclusive["skipped-after-timeouts"] = state.inconclusive.get("skipped-after-timeouts", 0) + 1
            return
        if not searching:
            st["calls_after_fail"] += 1
            h = case_hash(case)
            failure = st["failing"].get(h)
            if failure is None and (st["calls_after_fail"] > shrink_budget
                                    or time.process_time() - st["t_fail"] > shrink_cpu):
                return
        if failure is None:
            out, f, known = run_case(mod, sub, case, timeout, state, count=searching)
            if f is not None and known is None:
                failure = f
                st["failing"][h if h is not None else case_hash(case)] = f
        if failure is not None:
            st["last"] = (case, failure)
            if st["first"] is None:
                st["first"] = (case, failure)
                st["t_fail"] = time.process_time()
            raise _Violation()

    try:
        test()
    except _Violation:
        pass
    except BaseException as exc:  # Flaky / hypothesis internal errors while we hold a failing case
        if isinstance(exc, (KeyboardInterrupt, SystemExit)):
            raise
        if st["last"] is None:
            raise
    if st["last"] is not None:
        case, failure = st["last"]
        # prefer the smallest failing case seen
        best = min(((len(json.dumps(c, default=str)), i, c, f) for i, (c, f) in
                    enumerate([st["last"], st["first"]])), key=lambda x: (x[0], x[1]))
        case, failure = best[2], best[3]
        state.violations.append({"subcheck": sub.name, "case": case, "failure": failure.to_json(),
                                 "shrunk": st["calls_after_fail"]})


def run_enumeration(mod, sub, tier, shard, nshards, timeout, state):
    n = 0
    nviol = 0
    for i, case in enumerate(sub.enumerate(tier)):
        if i % nshards != shard:
            continue
        n += 1
        out, failure, known = run_case(mod, sub, case, timeout, state)
        if failure is not None and known is None:
            nviol += 1
            if nviol <= 3:
                state.violations.append({"subcheck": sub.name, "case": case, "failure": failure.to_json(),
                                         "shrunk": 0})
            if nviol >= 50:
                break
    state.exhaustive_done[sub.name] = n


MAX_TIMEOUTS_PER_SUBCHECK = 6


def _limit_memory():
    """Cap the address space of a shard: a runaway grounding then raises MemoryError (inconclusive)
    instead of taking the machine down."""
    try:
        import resource

        lim = int(os.environ.get("VERIF_MEM_MB", "4096")) << 20
        resource.setrlimit(resource.RLIMIT_AS, (lim, lim))
    except Exception:
        pass


def main(argv):
    args = json.loads(argv[1])
    _limit_memory()
    try:  # die with the parent (PR_SET_PDEATHSIG = 1)
        import ctypes
        import signal as _signal

        ctypes.CDLL("libc.so.6").prctl(1, _signal.SIGKILL)
    except Exception:
        pass
    t0 = time.time()
    state = ShardState()
    status = {"ok": True}
    try:
        mod = importlib.import_module("pbt.props.%s" % args["prop"].lower())
        plrun.reset_state()
        for si, sub in enumerate(mod.SUBCHECKS):
            if args.get("only") and sub.name not in args["only"]:
                continue
            nshards = min(args["nshards"], sub.max_shards)
            shard = args["shard"]
            if shard >= nshards:
                continue
            timeout = sub.timeout[args["tier"]]
            if sub.enumerate is not None:
                run_enumeration(mod, sub, args["tier"], shard, nshards, timeout, state)
            if sub.strategy is not None:
                total = sub.budget[args["tier"]]
                scale = float(os.environ.get("VERIF_BUDGET_SCALE", "1"))
                total = max(1, int(total * scale))
                n = total // nshards + (1 if shard < total % nshards else 0)
                if n > 0:
                    seed = (args["seed"] * 1000003 + si * 7919 + shard * 104729 + 17) % (2 ** 63)
                    run_hypothesis(mod, sub, n, seed, args["tier"], timeout, state)
    except BaseException as exc:  # harness error
        status = {"ok": False, "error": "".join(traceback.format_exception(type(exc), exc, exc.__traceback__))[-6000:]}
    res = state.to_json()
    res["status"] = status
    res["wall_s"] = time.time() - t0
    with open(args["out"], "w") as f:
        json.dump(res, f, default=str)
    plrun.kill_children()
    return 0 if status["ok"] else 2


if __name__ == "__main__":
    sys.exit(main(sys.argv))
