"""Engine variants used by C03/C04, built from the harness side on the documented extension point
StackBasedEngine.init_message_stack (docs/source/engine.rst).  No hook in /repo is needed."""
import random


def make_engine(mode, seed=0):
    """mode: default | shuffle | unbuffered | rcfirst | random"""
    from problog.engine_stack import StackBasedEngine, MessageFIFO, MessageAnyOrder

    if mode == "default":
        return StackBasedEngine()
    if mode == "unbuffered":
        return StackBasedEngine(unbuffered=True)
    if mode == "rcfirst":
        return StackBasedEngine(unbuffered=True, rc_first=True)
    if mode == "shuffle":
        stats = {"permuted": 0, "batches": 0}

        class ShuffledFIFO(MessageFIFO):
            """MessageFIFO that permutes every appended batch consisting only of 'e' (eval) messages: a dynamic
            per-call reordering of the exploration order of sibling clauses / disjuncts."""

            def __init__(self, engine):
                MessageFIFO.__init__(self, engine)

            def __iadd__(self, messages):
                messages = list(messages)
                if len(messages) >= 2 and all(m[0] == "e" for m in messages):
                    stats["batches"] += 1
                    before = [id(m) for m in messages]
                    engine_rng = ShuffledEngine._rng
                    engine_rng.shuffle(messages)
                    if [id(m) for m in messages] != before:
                        stats["permuted"] += 1
                for m in messages:
                    self.append(m)
                return self

        class ShuffledEngine(StackBasedEngine):
            _rng = random.Random(seed)
            _stats = stats

            def __init__(self, **kwdargs):
                StackBasedEngine.__init__(self, **kwdargs)

            def init_message_stack(self):
                return ShuffledFIFO(self)

        return ShuffledEngine()
    if mode == "random":
        rng = random.Random(seed)

        class RandomOrderQueue(MessageAnyOrder):
            # as printed in docs/source/engine.rst, with random.Random(seed) instead of the global RNG
            def __init__(self, engine):
                MessageAnyOrder.__init__(self, engine)
                self.messages_rc = []
                self.messages_e = []

            def append(self, message):
                if message[0] == "e":
                    self.messages_e.append(message)
                else:
                    self.messages_rc.append(message)

            def pop(self):
                if self.messages_rc:
                    return self.messages_rc.pop(-1)
                else:
                    i = rng.randint(0, len(self.messages_e) - 1)
                    return self.messages_e.pop(i)

            def __nonzero__(self):
                return bool(self.messages_e) or bool(self.messages_rc)

            def __bool__(self):
                return bool(self.messages_e) or bool(self.messages_rc)

            def __len__(self):
                return len(self.messages_e) + len(self.messages_rc)

            def __iter__(self):
                return iter(self.messages_e + self.messages_rc)

        class RandomOrderEngine(StackBasedEngine):
            def __init__(self, **kwdargs):
                kwdargs["unbuffered"] = True
                StackBasedEngine.__init__(self, **kwdargs)

            def init_message_stack(self):
                return RandomOrderQueue(self)

        return RandomOrderEngine()
    raise ValueError(mode)
