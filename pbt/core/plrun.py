"""Running the code under test in isolation and normalising what comes back (DESIGN 2.5, 2.7)."""
import contextlib
import io
import os
import random
import signal
import sys
import traceback
import warnings

from .api import CaseTimeout, Failure

TOL_ABS = 1e-9
TOL_REL = 1e-9


def close(a, b, tol_abs=TOL_ABS, tol_rel=TOL_REL):
    a = float(a)
    b = float(b)
    if a == b:
        return True
    return abs(a - b) <= tol_abs + tol_rel * max(abs(a), abs(b))


# ------------------------------------------------------------------------------------------------ isolation

_ORIG_LIBPATHS = None


def reset_state():
    """Reset module-level state of problog that leaks between cases."""
    global _ORIG_LIBPATHS
    import problog

    if _ORIG_LIBPATHS is None:
        _ORIG_LIBPATHS = list(problog.library_paths)
    problog.library_paths[:] = _ORIG_LIBPATHS
    try:
        from problog.extern import problog_export

        problog_export.database = None
    except Exception:
        pass
    warnings.resetwarnings()
    warnings.simplefilter("ignore")


def _children_of(pid):
    out = []
    try:
        for d in os.listdir("/proc"):
            if not d.isdigit():
                continue
            try:
                with open("/proc/%s/stat" % d) as f:
                    st = f.read()
                rp = st.rfind(")")
                fields = st[rp + 2:].split()
                if int(fields[1]) == pid:
                    out.append(int(d))
            except Exception:
                pass
    except Exception:
        pass
    return out


def kill_children():
    """Kill sub-processes (dsharp, maxsatz) left behind by an interrupted case."""
    for c in _children_of(os.getpid()):
        try:
            os.kill(c, signal.SIGKILL)
        except Exception:
            pass
    try:
        while True:
            pid, _ = os.waitpid(-1, os.WNOHANG)
            if pid == 0:
                break
    except Exception:
        pass


def _alarm_handler(signum, frame):
    raise CaseTimeout()


@contextlib.contextmanager
def watchdog(seconds):
    """Per-case watchdog: `seconds` of CPU time of this process (robust against machine load), plus a wall
    clock limit of 8x that for time spent waiting on sub-processes (dsharp, maxsatz)."""
    old_alrm = signal.signal(signal.SIGALRM, _alarm_handler)
    old_prof = signal.signal(signal.SIGPROF, _alarm_handler)
    # (both timers re-fire: an exception raised inside a __del__ / callback / bare except of the code under test is
    # swallowed there, and a one-shot timer would then never stop the case)
    signal.setitimer(signal.ITIMER_PROF, seconds, 2.0)
    signal.setitimer(signal.ITIMER_REAL, seconds * 8, 5.0)
    try:
        yield
    finally:
        while True:
            try:
                signal.setitimer(signal.ITIMER_PROF, 0)
                signal.setitimer(signal.ITIMER_REAL, 0)
                signal.signal(signal.SIGALRM, old_alrm)
                signal.signal(signal.SIGPROF, old_prof)
                break
            except CaseTimeout:  # a timer fired while the timers were being switched off
                continue


@contextlib.contextmanager
def captured_output():
    out, err = io.StringIO(), io.StringIO()
    o, e = sys.stdout, sys.stderr
    sys.stdout, sys.stderr = out, err
    try:
        yield out, err
    finally:
        sys.stdout, sys.stderr = o, e


RESOURCE_ERRORS = (RecursionError, MemoryError)


# ------------------------------------------------------------------------------------------------ signatures


def exc_signature(exc):
    """Exception class + innermost frame inside problog/ (file, function, source text)."""
    tb = traceback.extract_tb(exc.__traceback__)
    frame = None
    for fr in tb:
        fn = fr.filename.replace("\\", "/")
        if "/problog/" in fn and "/verif/" not in fn:
            frame = fr
    name = type(exc).__name__
    if frame is None:
        return "%s@<outside problog>" % name
    short = frame.filename.replace("\\", "/").split("/problog/")[-1]
    return "%s@%s:%s:%s" % (name, short, frame.name, (frame.line or "").strip())


def is_problog_error(exc):
    from problog.errors import ProbLogError

    return isinstance(exc, ProbLogError)


ERROR_CLASSES = {}


def is_grounding_error(name):
    from problog.errors import GroundingError

    cls = ERROR_CLASSES.get(name)
    return cls is not None and issubclass(cls, GroundingError)


def classify_exception(exc):
    """('error', ClassName) for user-facing ProbLog errors, ('crash', signature) for everything else,
    ('resource', name) for resource exhaustion."""
    if isinstance(exc, RESOURCE_ERRORS):
        return ("resource", type(exc).__name__)
    if is_problog_error(exc):
        ERROR_CLASSES[type(exc).__name__] = type(exc)
        return ("error", type(exc).__name__)
    return ("crash", exc_signature(exc))


def error_family(name):
    """Group error class names by what they mean to a user (used when a property says 'same errors')."""
    return name


# ------------------------------------------------------------------------------------------------ running inference


def term_key(t):
    return str(t)


def norm_result(result):
    """{Term: prob} -> {str: float}."""
    out = {}
    for k, v in result.items():
        out[term_key(k)] = v
    return out


def run_problog(src, knowledge=None, semiring=None, engine=None, engine_args=None, ground_args=None,
                eval_args=None, rseed=None, keep_raw=False):
    """Run inference the way problog.tasks.probability.execute does.

    Returns ('ok', {instance text: value}) | ('error', ErrorClassName) | ('crash', signature)
            | ('resource', name).
    """
    from problog.program import PrologString
    from problog.engine import DefaultEngine
    from problog import get_evaluatable

    reset_state()
    if rseed is not None:
        random.seed(rseed)
    engine_args = engine_args or {}
    ground_args = ground_args or {}
    eval_args = eval_args or {}
    try:
        with captured_output():
            model = PrologString(src)
            eng = engine if engine is not None else DefaultEngine(**engine_args)
            db = eng.prepare(model)
            db_semiring = db.get_data("semiring")
            if db_semiring is not None:
                semiring = db_semiring
            kc = knowledge
            if kc is None or isinstance(kc, str):
                kc = get_evaluatable(kc, semiring=semiring)
            formula = kc.create_from(db, engine=eng, database=db, **ground_args)
            result = formula.evaluate(semiring=semiring, **eval_args)
        if keep_raw:
            return ("ok", result)
        return ("ok", norm_result(result))
    except CaseTimeout:
        raise
    except BaseException as exc:  # noqa
        if isinstance(exc, (KeyboardInterrupt, SystemExit)):
            raise
        return classify_exception(exc)


def drop_zero(res, tol=1e-12):
    """Probability mode: drop zero entries and non-ground placeholders."""
    out = {}
    for k, v in res.items():
        try:
            fv = float(v)
        except Exception:
            out[k] = v
            continue
        if abs(fv) <= tol:
            continue
        out[k] = fv
    return out


def compare_prob_mode(a, b, what_a="A", what_b="B"):
    """Compare two result tuples in probability mode. Returns Failure or None."""
    if a[0] != b[0]:
        return Failure("outcome-mismatch", "%s=%r %s=%r" % (what_a, a, what_b, b),
                       sig="outcome-mismatch:%s/%s" % (_sigpart(a), _sigpart(b)))
    if a[0] != "ok":
        if a[1] != b[1]:
            return Failure("outcome-mismatch", "%s=%r %s=%r" % (what_a, a, what_b, b),
                           sig="outcome-mismatch:%s/%s" % (_sigpart(a), _sigpart(b)))
        return None
    da, db = drop_zero(a[1]), drop_zero(b[1])
    for k in sorted(set(da) | set(db)):
        va, vb = da.get(k, 0.0), db.get(k, 0.0)
        if not close(va, vb):
            return Failure("prob-mismatch", "%s: %s=%r %s=%r" % (k, what_a, va, what_b, vb))
    return None


def compare_instance_mode(a, b, what_a="A", what_b="B", key_norm=None):
    """Probability mode plus equal sets of reported instances."""
    f = compare_prob_mode(a, b, what_a, what_b)
    if f is not None:
        return f
    if a[0] == "ok":
        ka = set(a[1])
        kb = set(b[1])
        if key_norm is not None:
            ka = set(key_norm(k) for k in ka)
            kb = set(key_norm(k) for k in kb)
        if ka != kb:
            # instances that differ all have probability 0 on their side (or are non-ground placeholders)?
            def _zero(res, keys):
                m = dict(((key_norm(k) if key_norm else k), v) for k, v in res[1].items())
                return all(abs(float(m.get(k, 0.0))) <= 1e-12 for k in keys)

            kind = "instance-set-mismatch"
            if _zero(a, ka - kb) and _zero(b, kb - ka):
                kind = "zero-instance-set-mismatch"
            return Failure(kind, "only in %s: %s; only in %s: %s" % (what_a, sorted(ka - kb), what_b, sorted(kb - ka)))
    return None


def _sigpart(r):
    if r[0] == "ok":
        return "ok"
    return "%s:%s" % (r[0], r[1])
