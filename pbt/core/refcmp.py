"""Comparing a normalised ProbLog result with the reference distribution semantics."""
from .api import Failure
from .plrun import close


def compare_with_ref(ref, res, tol_abs=1e-9):
    """ref: pbt.ref.semantics.RefResult;  res: tuple from plrun.run_problog.  Returns Failure or None."""
    if res[0] == "crash":
        return Failure("crash", "internal exception %s" % res[1], sig=res[1])
    if res[0] == "resource":
        return None
    if ref.inconsistent:
        if res[0] == "error" and res[1] == "InconsistentEvidenceError":
            return None
        return Failure("inconsistent-evidence-not-rejected",
                       "reference P(evidence)=0 but ProbLog returned %r" % (res,),
                       sig="inconsistent-evidence-not-rejected:%s" % (res[1] if res[0] != "ok" else "ok"))
    if res[0] == "error":
        return Failure("unexpected-error", "reference answers %s but ProbLog raised %s" % (
            dict((k, float(v)) for k, v in ref.probs.items()), res[1]), sig="unexpected-error:%s" % res[1])
    got = res[1]
    for k, v in got.items():
        try:
            fv = float(v)
        except Exception:
            return Failure("non-numeric", "%s -> %r" % (k, v))
        if k in ref.probs:
            if not close(fv, float(ref.probs[k]), tol_abs=tol_abs):
                return Failure("prob-mismatch", "%s: problog %r reference %s (=%r)" % (k, fv, ref.probs[k], float(ref.probs[k])))
        else:
            # instance the reference does not consider possible (or a non-ground placeholder): must be 0
            if abs(fv) > tol_abs:
                return Failure("extra-instance", "%s reported with probability %r; not derivable in the reference" % (k, fv))
    for k, v in ref.probs.items():
        if k not in got and v is not None and abs(float(v)) > tol_abs:
            return Failure("missing-instance", "%s has reference probability %s but is not reported" % (k, v))
    return None
