"""Known-findings matcher (DESIGN 4.2, 4.3).  known_findings.json is read-only at run time.

A failure is a listed finding only if BOTH its failure signature and its case class match an entry with
status 'known'.  'fixed' entries suppress nothing."""
import json
import os
import re

_ROOT = os.path.dirname(os.path.dirname(os.path.dirname(os.path.abspath(__file__))))
_PATH = os.path.join(_ROOT, "known_findings.json")
_CACHE = None


def load():
    global _CACHE
    if _CACHE is None:
        if os.path.exists(_PATH):
            with open(_PATH) as f:
                _CACHE = json.load(f)["findings"]
        else:
            _CACHE = []
    return _CACHE


def for_property(pid, status=None):
    return [e for e in load() if (e["property"] == pid or pid in e.get("also", ()))
            and (status is None or e["status"] == status)]


def sig_matches(entry, failure, pid=None):
    by = entry.get("sig_re_by_property", {})
    if pid in by:
        return re.fullmatch(by[pid], failure.sig, flags=re.S) is not None
    if "sig_re" in entry:
        return re.fullmatch(entry["sig_re"], failure.sig, flags=re.S) is not None
    return entry.get("sig") == failure.sig


def match(mod, subname, case, failure):
    """Return the id of the listed known finding this failure belongs to, or None."""
    for e in for_property(mod.PROPERTY_ID, "known"):
        if e.get("subcheck") and e["subcheck"] != subname:
            continue
        if not sig_matches(e, failure, mod.PROPERTY_ID):
            continue
        cls = e.get("class")
        if cls:
            pred = getattr(mod, "KNOWN_CLASSES", {}).get(cls)
            if pred is None:
                continue
            try:
                if not pred(case, failure):
                    continue
            except Exception:
                continue
        return e["id"]
    return None
