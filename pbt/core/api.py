"""Shared data types of the checking framework.

A property module (pbt/props/cNN.py) exposes

    PROPERTY_ID  : "C07"
    LEVEL        : "exploration" | "translation_validation"
    RULE         : text - generator + non-trivial rule (goes to the evidence file)
    ASSUMPTIONS  : list of strings
    SUBCHECKS    : list of SubCheck
    KNOWN_CLASSES: {class name: predicate(case, failure) -> bool}   (optional)

A *case* is always a JSON-serialisable value; `check(case)` is a pure function of the case and of the
code under test and returns an Outcome.  Everything random is drawn by Hypothesis (or enumerated) and is
part of the case, so that a replay file re-runs the oracle without Hypothesis.
"""
import hashlib
import json


class Failure(object):
    """An oracle failure.

    kind   - the oracle's failure kind ('prob-mismatch', 'crash', 'extra-instance', ...)
    sig    - failure signature used for matching known findings: for exceptions the exception class plus
             the innermost frame inside problog/ (file, function, source text); otherwise equal to kind
    detail - human readable explanation
    """

    def __init__(self, kind, detail="", sig=None):
        self.kind = kind
        self.sig = sig if sig is not None else kind
        self.detail = detail

    def to_json(self):
        return {"kind": self.kind, "sig": self.sig, "detail": self.detail[:4000]}

    def __repr__(self):
        return "Failure(%s | %s | %s)" % (self.kind, self.sig, self.detail[:300])


class Outcome(object):
    """Result of checking one case."""

    def __init__(self, nontrivial=False, features=(), failure=None, inconclusive=None, classes=(), sample=None,
                 extra=None):
        self.nontrivial = nontrivial
        self.features = list(features)
        self.failure = failure
        self.inconclusive = inconclusive  # reason string when the case could not be decided (resource limits)
        self.classes = list(classes)  # outcome classes (answered / rejected / ...), histogrammed
        self.sample = sample  # printable form of the case for the evidence file
        self.extra = extra or {}  # numeric counters to add up in the evidence (e.g. disagreements_checked)


class SubCheck(object):
    """One generator + oracle pair of a property.

    strategy   : zero-argument callable returning a Hypothesis strategy of cases (or None)
    enumerate  : callable(tier) -> iterable of cases for a bounded-exhaustive sub-space (or None)
    check      : callable(case) -> Outcome
    budget     : {'quick': n, 'thorough': m} number of Hypothesis examples over all shards
    timeout    : {'quick': s, 'thorough': s} per-case watchdog (seconds)
    exhaustive : description of the exhaustive sub-space (for the evidence), when enumerate is given
    """

    def __init__(self, name, check, strategy=None, enumerate=None, budget=None, timeout=None, exhaustive=None,
                 render=None, max_shards=16, exhaustive_tiers=("quick", "thorough")):
        self.name = name
        self.check = check
        self.strategy = strategy
        self.enumerate = enumerate
        self.budget = budget or {"quick": 200, "thorough": 2000}
        self.timeout = timeout or {"quick": 10, "thorough": 30}
        self.exhaustive = exhaustive
        self.render = render
        self.max_shards = max_shards
        # tiers in which `enumerate` covers the whole finite space described by `exhaustive` (elsewhere it is a sample)
        self.exhaustive_tiers = tuple(exhaustive_tiers)


def case_hash(case):
    return hashlib.sha1(json.dumps(case, sort_keys=True, default=str).encode("utf8")).hexdigest()[:16]


class CaseTimeout(BaseException):
    """Raised by the per-case watchdog.  BaseException so that `except Exception` in the code under test
    does not swallow it."""
